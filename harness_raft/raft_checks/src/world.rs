//! The model state ("world"): three real `raft::Cluster` values over
//! MirrorStorage, the virtual clocks, the network, ghost variables; the
//! transition function `apply` that calls the real
//! `Cluster::{process,request,response,append}`; the invariants of C27-C29
//! evaluated on every transition; the canonical byte encoding of the
//! COMPLETE state.

use crate::mirror::{Entry, MirrorStorage};
use crate::raft::{self, Cluster, ClusterSettings, Request, Response};
use crate::vclock;
use std::future::Future;
use std::pin::pin;
use std::task::{Context, Poll, Waker};
use std::time::Duration;

pub const N: usize = 3;
pub const QUANTUM_MS: u64 = 500;
pub const ELECTION_FACTOR_MS: u64 = 1000;
pub const HEARTBEAT_MS: u64 = 1000;
pub const TERM_TIMEOUT_MS: u64 = 3000;
pub const CLUSTER_HASH: u64 = 123;

/// Ages are encoded as min(age, AGE_CAP). raft.rs only compares ages with the
/// thresholds election_timeout (0, 1000, 2000 or heartbeat 1000; `>=`),
/// heartbeat_timeout (`>`), term_timeout (`>` and `<=`); an age only grows
/// until its timer is reset. Every age >= max threshold + 1 quantum therefore
/// behaves identically now and after any number of further ticks.
pub const AGE_CAP_MS: u64 = max3(TERM_TIMEOUT_MS, HEARTBEAT_MS, ELECTION_FACTOR_MS * (N as u64 - 1)) + QUANTUM_MS;

const fn max3(a: u64, b: u64, c: u64) -> u64 {
    let m = if a > b { a } else { b };
    if m > c { m } else { c }
}

pub type Node = Cluster<u8, (), MirrorStorage>;

pub fn block_on<F: Future>(f: F) -> F::Output {
    let mut f = pin!(f);
    let mut cx = Context::from_waker(Waker::noop());
    match f.as_mut().poll(&mut cx) {
        Poll::Ready(v) => v,
        Poll::Pending => panic!("HARNESS: a raft future returned Pending on the in-memory storage"),
    }
}

#[derive(Clone)]
pub enum Msg {
    Req(Request<u8>),
    Resp(Request<u8>, Response),
}

pub struct PacketData {
    pub msg: Msg,
    /// complete canonical encoding of the message
    pub enc: Vec<u8>,
}

/// in-flight messages are immutable: worlds share them
pub type Packet = std::sync::Arc<PacketData>;

#[derive(Clone, Copy, PartialEq, Eq, PartialOrd, Ord, Debug, Hash)]
pub enum Event {
    /// the global clock advances one quantum; delayed messages re-enter the queue
    Tick,
    /// node i polls `process()`
    Proc(u8),
    /// in-flight message k is delivered (request -> target.request(), reply pair -> sender.response())
    Deliver(u8),
    /// message k is delivered and a copy stays in flight (duplication)
    DeliverDup(u8),
    /// message k is lost
    Drop(u8),
    /// message k is moved behind the queue (reordering; FIFO regime only)
    Defer(u8),
    /// message k is held back until after the next Tick (slow message; FIFO regime only)
    Delay(u8),
    /// message k is held back in the network for an unbounded time (FIFO regime only)
    Hold(u8),
    /// every held-back message re-enters the queue (at the back)
    Release,
    /// the next Storage::append at node i fails (once per execution)
    FailAppend(u8),
    /// node i's clock jumps one quantum ahead: its timers fire early
    Skew(u8),
    /// all traffic from and to node i is lost until Heal
    Isolate(u8),
    Heal,
    /// a client appends the next value at node i, which must be in state Leader
    Append(u8),
}

impl Event {
    pub fn to_text(&self) -> String {
        format!("{self:?}")
    }
    pub fn parse(s: &str) -> Option<Event> {
        let s = s.trim();
        if s == "Tick" {
            return Some(Event::Tick);
        }
        if s == "Heal" {
            return Some(Event::Heal);
        }
        if s == "Release" {
            return Some(Event::Release);
        }
        let (name, rest) = s.split_once('(')?;
        let k: u8 = rest.strip_suffix(')')?.parse().ok()?;
        Some(match name {
            "Proc" => Event::Proc(k),
            "Deliver" => Event::Deliver(k),
            "DeliverDup" => Event::DeliverDup(k),
            "Drop" => Event::Drop(k),
            "Defer" => Event::Defer(k),
            "Delay" => Event::Delay(k),
            "Hold" => Event::Hold(k),
            "FailAppend" => Event::FailAppend(k),
            "Skew" => Event::Skew(k),
            "Isolate" => Event::Isolate(k),
            "Append" => Event::Append(k),
            _ => return None,
        })
    }
}

// ---------------------------------------------------------------------------
// ghost variables (part of the canonical key)

pub const F_TWO_LEADERS: u32 = 1; // C27 was violated earlier in this history
pub const F_STALE_ACK: u32 = 2; // a leader advanced its commit on an Ok reply to a request of another term
pub const F_ACK_WITHOUT_ENTRY: u32 = 4; // a leader advanced its commit to i on an Ok reply of a follower whose log differs from the leader's at some index <= i
pub const F_OLD_TERM_COMMIT: u32 = 8; // a leader newly committed an entry of an older term than its own
pub const F_DUP_INDEX: u32 = 16; // a node's storage holds two entries with one index
pub const F_DOUBLE_VOTE: u32 = 32; // a node answered Vote with Ok for two candidates in one term
pub const F_OLDER_LEADER_ACCEPTED: u32 = 128; // a node answered Ok to Append/Heartbeat of a leader whose term is lower than a term the node has already voted in
pub const F_APPEND_ON_DIVERGENT_PREFIX: u32 = 256; // a follower stored entry i from a leader although its log below i differs from that leader's log
pub const F_DIVERGENT_BY_BATCH: u32 = 512; // the FIRST such store of the history was made by an Append carrying several entries (a reconcile batch)
pub const F_UNEXPLAINED_BAD_ELECTION: u32 = 1024; // a node entered Leader without a leader-committed entry while no other cause flag was set
pub const F_STALE_VOTE: u32 = 64; // a candidate became leader counting an Ok reply to a Vote request of another term

#[derive(Clone, Default, PartialEq, Eq, Debug)]
pub struct Ghost {
    /// per node: (term, candidate) of every Vote request it answered Ok
    pub grants: [Vec<(u64, u8)>; N],
    /// per node: how it last left state Voted (0 never, 1 term-timeout in process(), 2 became follower, 3 by a reply, 4 voted again)
    pub voted_exit: [u8; N],
    /// per node: (term, candidate A, candidate B, exit kind) of every double vote
    pub double_votes: Vec<(u64, u8, u8, u8, u8)>,
    /// per candidate: term of its current candidacy, and the request.term (+1) of every counted Ok vote reply, per voter
    pub cand_term: [u64; N],
    pub counted: [[u64; N]; N],
    /// every (term, node, stale-vote flag) that was ever observed in state Leader
    pub leaders: Vec<(u64, u8, u8)>,
    /// (index, term, data) of every entry whose commit happened on a node in state Leader
    pub leader_committed: Vec<(u64, u64, u8)>,
    pub flags: u32,
}

fn set_insert<T: Ord + Clone>(v: &mut Vec<T>, x: T) -> bool {
    match v.binary_search(&x) {
        Ok(_) => false,
        Err(p) => {
            v.insert(p, x);
            true
        }
    }
}

pub fn exit_kind_name(k: u8) -> &'static str {
    match k {
        0 => "first-vote",
        1 => "after-term-timeout-in-voted",
        2 => "after-follower",
        3 => "after-reply",
        4 => "after-higher-vote",
        6 => "own-candidacy-in-a-term-already-voted-in",
        _ => "while-voted",
    }
}

// ---------------------------------------------------------------------------

#[derive(Clone, Debug, PartialEq, Eq)]
pub struct Viol {
    pub property: &'static str,
    pub signature: String,
    pub what: String,
}

#[derive(Clone)]
pub struct Snap {
    pub kind: u8,
    pub payload: u64,
    pub term: u64,
    pub raft_commit: u64,
    pub storage_commit: u64,
    pub entries: Vec<Entry>,
}

#[derive(Clone)]
pub struct World {
    pub nodes: Vec<Node>,
    pub now: u64,
    pub skew: [u64; N],
    pub net: Vec<Packet>,
    pub delayed: Vec<Packet>,
    /// messages held back until an explicit Release
    pub held: Vec<Packet>,
    pub isolated: Option<u8>,
    pub appends: u8,
    pub dups: u8,
    /// storage failures injected so far
    pub storage_faults: u8,
    /// true: the network is an unordered multiset kept sorted by encoding (all-interleavings regime);
    /// false: FIFO queue (deviation-bounded regime)
    pub multiset: bool,
    pub ghost: Ghost,
}

pub fn state_name(kind: u8, payload: u64) -> String {
    match kind {
        raft::V_CANDIDATE => "Candidate".into(),
        raft::V_ELECTION => "Election".into(),
        raft::V_FOLLOWER => format!("Follower({payload})"),
        raft::V_LEADER => "Leader".into(),
        raft::V_VOTED => format!("Voted({payload})"),
        _ => "?".into(),
    }
}

fn enc_req(r: &Request<u8>, out: &mut Vec<u8>) {
    out.push(r.v_kind());
    for f in r.v_fields() {
        out.extend_from_slice(&f.to_le_bytes());
    }
    let logs = r.v_logs();
    out.extend_from_slice(&(logs.len() as u32).to_le_bytes());
    for l in logs {
        out.extend_from_slice(&l.index.to_le_bytes());
        out.extend_from_slice(&l.term.to_le_bytes());
        out.push(l.data);
    }
}

pub fn packet(msg: Msg) -> Packet {
    let mut enc = vec![];
    match &msg {
        Msg::Req(r) => {
            enc.push(0);
            enc_req(r, &mut enc);
        }
        Msg::Resp(r, p) => {
            enc.push(1);
            enc_req(r, &mut enc);
            p.v_encode(&mut enc);
        }
    }
    std::sync::Arc::new(PacketData { msg, enc })
}

pub fn kind_name(k: u8) -> &'static str {
    match k {
        raft::V_APPEND => "Append",
        raft::V_HEARTBEAT => "Heartbeat",
        raft::V_PREVOTE => "PreVote",
        raft::V_VOTE => "Vote",
        _ => "?",
    }
}

pub fn describe_packet(p: &Packet) -> String {
    let req = |r: &Request<u8>| {
        let f = r.v_fields();
        let logs: Vec<String> = r.v_logs().iter().map(|l| format!("({},{},{})", l.index, l.term, l.data)).collect();
        format!(
            "{}{} {}->{} term={} log=({},{},{})",
            kind_name(r.v_kind()),
            if r.v_kind() == raft::V_APPEND { format!("[{}]", logs.join(",")) } else { String::new() },
            f[1],
            f[2],
            f[3],
            f[4],
            f[5],
            f[6]
        )
    };
    match &p.msg {
        Msg::Req(r) => format!("request {}", req(r)),
        Msg::Resp(r, resp) => format!("reply {} to {}", resp.v_kind_name(), req(r)),
    }
}

impl World {
    pub fn new(multiset: bool) -> World {
        vclock::set_now(0);
        let nodes = (0..N as u64)
            .map(|index| {
                Cluster::new(
                    MirrorStorage::default(),
                    ClusterSettings {
                        index,
                        size: N as u64,
                        hash: CLUSTER_HASH,
                        election_factor_ms: ELECTION_FACTOR_MS,
                        heartbeat_timeout: Duration::from_millis(HEARTBEAT_MS),
                        term_timeout: Duration::from_millis(TERM_TIMEOUT_MS),
                    },
                )
            })
            .collect();
        World { nodes, now: 0, skew: [0; N], net: vec![], delayed: vec![], held: vec![], isolated: None, appends: 0, dups: 0, storage_faults: 0, multiset, ghost: Ghost::default() }
    }

    fn clock(&self, i: usize) {
        vclock::set_now(self.now + self.skew[i]);
    }

    pub fn snap(&self, i: usize) -> Snap {
        let n = &self.nodes[i];
        let (kind, payload) = n.v_state();
        Snap { kind, payload, term: n.v_term(), raft_commit: n.v_node(i).log_commit, storage_commit: n.storage.commit, entries: n.storage.entries.clone() }
    }

    pub fn is_leader(&self, i: usize) -> bool {
        self.nodes[i].v_state().0 == raft::V_LEADER
    }

    pub fn leaders(&self) -> Vec<usize> {
        (0..N).filter(|&i| self.is_leader(i)).collect()
    }

    /// would `process()` change anything at node i now?
    pub fn proc_effective(&self, i: usize) -> bool {
        self.clock(i);
        let mut c = self.nodes[i].clone();
        let mut before = Vec::with_capacity(256);
        self.enc_node(i, &self.nodes[i], &mut before);
        let out = c.process();
        if out.is_some() {
            return true;
        }
        let mut after = Vec::with_capacity(256);
        self.enc_node(i, &c, &mut after);
        before != after
    }

    fn touches_isolated(&self, p: &Packet) -> bool {
        let Some(iso) = self.isolated else { return false };
        let r = match &p.msg {
            Msg::Req(r) => r,
            Msg::Resp(r, _) => r,
        };
        let f = r.v_fields();
        f[1] == iso as u64 || f[2] == iso as u64
    }

    fn push_net(&mut self, p: Packet) {
        if self.multiset {
            let pos = self.net.partition_point(|q| q.enc <= p.enc);
            self.net.insert(pos, p);
        } else {
            self.net.push(p);
        }
    }

    /// Apply one event. Err = the event is not enabled in this state.
    /// Returns the invariant violations (C27, C28, C29) of this transition.
    pub fn apply(&mut self, ev: Event) -> Result<Vec<Viol>, String> {
        let mut viols = vec![];
        match ev {
            Event::Tick => {
                self.now += QUANTUM_MS;
                let d: Vec<Packet> = self.delayed.drain(..).collect();
                for p in d {
                    self.push_net(p);
                }
            }
            Event::Hold(k) => {
                if self.multiset || k as usize >= self.net.len() {
                    return Err("Hold not enabled".into());
                }
                let p = self.net.remove(k as usize);
                self.held.push(p);
            }
            Event::Release => {
                if self.held.is_empty() {
                    return Err("Release not enabled".into());
                }
                let h: Vec<Packet> = self.held.drain(..).collect();
                for p in h {
                    self.push_net(p);
                }
            }
            Event::FailAppend(i) => {
                let i = i as usize;
                if i >= N || self.storage_faults >= 1 || self.nodes[i].storage.fail_next_append {
                    return Err("FailAppend not enabled".into());
                }
                self.storage_faults += 1;
                self.nodes[i].storage.fail_next_append = true;
            }
            Event::Skew(i) => {
                let i = i as usize;
                if i >= N {
                    return Err("no such node".into());
                }
                self.skew[i] += QUANTUM_MS;
            }
            Event::Isolate(i) => {
                if self.isolated.is_some() || i as usize >= N {
                    return Err("Isolate not enabled".into());
                }
                self.isolated = Some(i);
            }
            Event::Heal => {
                if self.isolated.is_none() {
                    return Err("Heal not enabled".into());
                }
                self.isolated = None;
            }
            Event::Drop(k) => {
                if k as usize >= self.net.len() {
                    return Err("no such message".into());
                }
                self.net.remove(k as usize);
            }
            Event::Defer(k) => {
                if self.multiset || k as usize + 1 >= self.net.len() {
                    return Err("Defer not enabled".into());
                }
                let p = self.net.remove(k as usize);
                self.net.push(p);
            }
            Event::Delay(k) => {
                if self.multiset || k as usize >= self.net.len() {
                    return Err("Delay not enabled".into());
                }
                let p = self.net.remove(k as usize);
                self.delayed.push(p);
            }
            Event::Proc(i) => {
                let i = i as usize;
                if i >= N {
                    return Err("no such node".into());
                }
                let before = self.snap(i);
                self.clock(i);
                let out = self.nodes[i].process();
                for r in out.unwrap_or_default() {
                    self.push_net(packet(Msg::Req(r)));
                }
                self.after_step(i, &before, &ev, None, &mut viols);
            }
            Event::Append(i) => {
                let i = i as usize;
                if i >= N || !self.is_leader(i) {
                    return Err("Append only at a node in state Leader".into());
                }
                let before = self.snap(i);
                self.appends += 1;
                let data = self.appends;
                self.clock(i);
                // a storage error is returned to the client; nothing is sent (raft.rs `append`: `?`)
                let out = block_on(self.nodes[i].append(data, None)).unwrap_or_default();
                for r in out {
                    self.push_net(packet(Msg::Req(r)));
                }
                self.after_step(i, &before, &ev, None, &mut viols);
            }
            Event::Deliver(k) | Event::DeliverDup(k) => {
                let k = k as usize;
                if k >= self.net.len() {
                    return Err("no such message".into());
                }
                let dup = matches!(ev, Event::DeliverDup(_));
                let p = if dup && self.multiset { self.net[k].clone() } else { self.net.remove(k) };
                if dup {
                    self.dups += 1;
                }
                if self.touches_isolated(&p) {
                    // lost on the partitioned link (a duplicate of it is lost too)
                    return Ok(viols);
                }
                if dup && !self.multiset {
                    self.net.push(p.clone());
                }
                match &p.msg {
                    Msg::Req(r) => {
                        let t = r.v_fields()[2] as usize;
                        let before = self.snap(t);
                        self.clock(t);
                        let resp = block_on(self.nodes[t].request(r));
                        let ok = resp.v_is_ok();
                        self.push_net(packet(Msg::Resp(r.clone(), resp)));
                        self.after_step(t, &before, &ev, Some((&p, ok)), &mut viols);
                    }
                    Msg::Resp(r, resp) => {
                        // the real server hands the reply to the node that sent the request (cluster.rs:284-289)
                        let o = r.v_fields()[1] as usize;
                        let before = self.snap(o);
                        self.clock(o);
                        let out = block_on(self.nodes[o].response(r, resp)).unwrap_or_else(|e| panic!("HARNESS: response failed: {}", e.description));
                        for q in out.unwrap_or_default() {
                            self.push_net(packet(Msg::Req(q)));
                        }
                        self.after_step(o, &before, &ev, Some((&p, resp.v_is_ok())), &mut viols);
                    }
                }
            }
        }
        Ok(viols)
    }

    /// ghost updates and invariants after node i handled something
    fn after_step(&mut self, i: usize, before: &Snap, ev: &Event, pkt: Option<(&Packet, bool)>, viols: &mut Vec<Viol>) {
        let after = self.snap(i);
        let is_proc = matches!(ev, Event::Proc(_));

        // ---- ghost: votes
        if let Some((p, ok)) = pkt {
            match &p.msg {
                Msg::Req(r) if r.v_kind() == raft::V_VOTE && ok => {
                    let f = r.v_fields();
                    let (term, cand) = (f[3], f[1] as u8);
                    let others: Vec<u8> = self.ghost.grants[i].iter().filter(|g| g.0 == term && g.1 != cand).map(|g| g.1).collect();
                    if !others.is_empty() {
                        let kind = if before.kind == raft::V_VOTED { 5 } else { self.ghost.voted_exit[i] };
                        for o in others {
                            set_insert(&mut self.ghost.double_votes, (term, i as u8, o.min(cand), o.max(cand), kind));
                        }
                        self.ghost.flags |= F_DOUBLE_VOTE;
                    }
                    set_insert(&mut self.ghost.grants[i], (term, cand));
                }
                Msg::Req(r) if (r.v_kind() == raft::V_APPEND || r.v_kind() == raft::V_HEARTBEAT) && ok => {
                    let term = r.v_fields()[3];
                    if self.ghost.grants[i].iter().any(|g| g.0 > term) {
                        self.ghost.flags |= F_OLDER_LEADER_ACCEPTED;
                    }
                    // entries stored by this step, compared with the sender's log below them
                    let sender = r.v_fields()[1] as usize;
                    let stored: Vec<&Entry> = after.entries.iter().filter(|e| !before.entries.contains(e) && r.v_logs().iter().any(|l| l.index == e.index && l.term == e.term && l.data == e.data)).collect();
                    if let Some(top) = stored.iter().map(|e| e.index).max() {
                        let se = &self.nodes[sender].storage.entries;
                        let mine_below: Vec<(u64, u64, u8)> = { let mut v: Vec<(u64, u64, u8)> = after.entries.iter().filter(|e| e.index < top).map(|e| (e.index, e.term, e.data)).collect(); v.sort(); v.dedup(); v };
                        let theirs_below: Vec<(u64, u64, u8)> = { let mut v: Vec<(u64, u64, u8)> = se.iter().filter(|e| e.index < top).map(|e| (e.index, e.term, e.data)).collect(); v.sort(); v.dedup(); v };
                        // (the sender may have been deposed since it sent the request; its log is still what the request was cut from)
                        if mine_below != theirs_below {
                            if self.ghost.flags & F_APPEND_ON_DIVERGENT_PREFIX == 0 && r.v_logs().len() >= 2 {
                                self.ghost.flags |= F_DIVERGENT_BY_BATCH;
                            }
                            self.ghost.flags |= F_APPEND_ON_DIVERGENT_PREFIX;
                        }
                    }
                }
                Msg::Resp(r, _) if r.v_kind() == raft::V_VOTE && ok && before.kind == raft::V_CANDIDATE => {
                    let f = r.v_fields();
                    self.ghost.counted[i][f[2] as usize] = f[3] + 1;
                }
                _ => {}
            }
        }
        if before.kind == raft::V_VOTED && (after.kind != before.kind || after.payload != before.payload) {
            self.ghost.voted_exit[i] = if is_proc {
                1
            } else if after.kind == raft::V_FOLLOWER {
                2
            } else if after.kind == raft::V_VOTED {
                4
            } else {
                3
            };
        }
        if after.kind == raft::V_CANDIDATE && before.kind != raft::V_CANDIDATE {
            self.ghost.cand_term[i] = after.term;
            self.ghost.counted[i] = [0; N];
            // standing for a term is a vote for oneself in that term
            let others: Vec<u8> = self.ghost.grants[i].iter().filter(|g| g.0 == after.term && g.1 != i as u8).map(|g| g.1).collect();
            for o in others {
                set_insert(&mut self.ghost.double_votes, (after.term, i as u8, o.min(i as u8), o.max(i as u8), 6));
                self.ghost.flags |= F_DOUBLE_VOTE;
            }
        }

        // ---- C27: at most one leader per term
        if after.kind == raft::V_LEADER {
            let mut stale = 0u8;
            if before.kind != raft::V_LEADER {
                for v in 0..N {
                    let c = self.ghost.counted[i][v];
                    if c != 0 && (c - 1 != self.ghost.cand_term[i] || c - 1 != after.term) {
                        stale = 1;
                    }
                }
                if stale == 1 {
                    self.ghost.flags |= F_STALE_VOTE;
                }
            } else if let Some(e) = self.ghost.leaders.iter().find(|l| l.0 == after.term && l.1 == i as u8) {
                stale = e.2;
            }
            let known = self.ghost.leaders.iter().any(|l| l.0 == after.term && l.1 == i as u8);
            if !known {
                set_insert(&mut self.ghost.leaders, (after.term, i as u8, stale));
                let rivals: Vec<(u64, u8, u8)> = self.ghost.leaders.iter().filter(|l| l.0 == after.term && l.1 != i as u8).cloned().collect();
                for rv in rivals {
                    let j = rv.1 as usize;
                    let simultaneous = self.is_leader(j) && self.nodes[j].v_term() == after.term;
                    let cause = self.c27_cause(after.term, i as u8, stale, rv);
                    self.ghost.flags |= F_TWO_LEADERS;
                    viols.push(Viol {
                        property: "C27",
                        signature: format!("two-leaders-one-term|{}|cause={}", if simultaneous { "simultaneous" } else { "successive" }, cause),
                        what: format!(
                            "node {} became Leader for term {} while node {} {} Leader for the same term ({})",
                            i,
                            after.term,
                            j,
                            if simultaneous { "is" } else { "has been" },
                            cause
                        ),
                    });
                }
            }
        }

        // ---- C29: a node entering Leader holds every entry committed by a leader
        if after.kind == raft::V_LEADER && before.kind != raft::V_LEADER {
            let missing: Vec<(u64, u64, u8)> = self
                .ghost
                .leader_committed
                .iter()
                .filter(|c| !after.entries.iter().any(|e| e.index == c.0 && e.term == c.1 && e.data == c.2))
                .cloned()
                .collect();
            if let Some(m) = missing.first() {
                let unexplained = self.cause() == "none";
                let at = after.entries.iter().find(|e| e.index == m.0);
                // did a node whose vote was counted hold the entry as committed (the vote check could have seen it)?
                let voter_knew = (0..N).any(|v| v != i && self.ghost.counted[i][v] != 0 && self.nodes[v].storage.entries.iter().any(|e| e.committed && e.index == m.0 && e.term == m.1 && e.data == m.2));
                viols.push(Viol {
                    property: "C29",
                    signature: format!(
                        "new-leader-lacks-committed-entry|{}|{}|cause={}",
                        if at.is_some() { "other-entry-at-index" } else { "index-absent" },
                        if voter_knew { "a-voter-held-it-committed" } else { "no-voter-held-it-committed" },
                        self.cause()
                    ),
                    what: format!(
                        "node {} became Leader for term {} without the leader-committed entry (index {}, term {}, data {}); its log holds {:?} there ({} committed entries missing)",
                        i,
                        after.term,
                        m.0,
                        m.1,
                        m.2,
                        at.map(|e| (e.index, e.term, e.data)),
                        missing.len()
                    ),
                });
                if unexplained {
                    self.ghost.flags |= F_UNEXPLAINED_BAD_ELECTION;
                }
            }
        }

        // ---- storage-level bookkeeping for C28/C29
        let newly: Vec<Entry> = after.entries.iter().filter(|e| e.committed && !before.entries.iter().any(|b| b.committed && b.index == e.index && b.term == e.term && b.data == e.data)).cloned().collect();
        {
            let mut idx: Vec<u64> = after.entries.iter().map(|e| e.index).collect();
            idx.sort();
            if idx.windows(2).any(|w| w[0] == w[1]) {
                self.ghost.flags |= F_DUP_INDEX;
            }
        }
        if after.kind == raft::V_LEADER && !newly.is_empty() {
            if let Some((p, true)) = pkt {
                if let Msg::Resp(r, _) = &p.msg {
                    let f = r.v_fields();
                    if f[3] != before.term {
                        self.ghost.flags |= F_STALE_ACK;
                    }
                    let fol = f[2] as usize;
                    let upto = newly.iter().map(|e| e.index).max().unwrap_or(0);
                    let fe = &self.nodes[fol].storage.entries;
                    let differs = after.entries.iter().filter(|e| e.index <= upto).any(|e| !fe.iter().any(|x| x.index == e.index && x.term == e.term && x.data == e.data));
                    if differs {
                        self.ghost.flags |= F_ACK_WITHOUT_ENTRY;
                    }
                }
            }
            for e in &newly {
                if e.term < after.term {
                    self.ghost.flags |= F_OLD_TERM_COMMIT;
                }
                set_insert(&mut self.ghost.leader_committed, (e.index, e.term, e.data));
            }
        }

        // ---- C28
        if after.raft_commit < before.raft_commit {
            viols.push(Viol {
                property: "C28",
                signature: format!("commit-index-decreased|raft|on={}|cause={}", self.step_kind(ev, pkt), self.cause()),
                what: format!("node {i}: commit index kept by the consensus code went from {} to {}", before.raft_commit, after.raft_commit),
            });
        }
        if after.storage_commit < before.storage_commit {
            viols.push(Viol {
                property: "C28",
                signature: format!("commit-index-decreased|storage|on={}|cause={}", self.step_kind(ev, pkt), self.cause()),
                what: format!("node {i}: commit index of the log storage went from {} to {}", before.storage_commit, after.storage_commit),
            });
        }
        for b in before.entries.iter().filter(|b| b.committed) {
            if !after.entries.iter().any(|e| e.committed && e.index == b.index && e.term == b.term && e.data == b.data) {
                viols.push(Viol {
                    property: "C28",
                    signature: format!("committed-entry-removed|on={}|cause={}", self.step_kind(ev, pkt), self.cause()),
                    what: format!("node {i}: committed entry (index {}, term {}, data {}) is gone", b.index, b.term, b.data),
                });
                break;
            }
        }
        for e in &newly {
            if let Some(o) = after.entries.iter().find(|o| o.committed && o.index == e.index && (o.term != e.term || o.data != e.data)) {
                viols.push(Viol {
                    property: "C28",
                    signature: format!("second-committed-entry-at-index|on={}|cause={}", self.step_kind(ev, pkt), self.cause()),
                    what: format!("node {i}: committed (index {}, term {}, data {}) although it already holds committed (index {}, term {}, data {})", e.index, e.term, e.data, o.index, o.term, o.data),
                });
                break;
            }
        }
        'outer: for e in &newly {
            for j in 0..N {
                if j == i {
                    continue;
                }
                if let Some(o) = self.nodes[j].storage.entries.iter().find(|o| o.committed && o.index == e.index && (o.term != e.term || o.data != e.data)) {
                    viols.push(Viol {
                        property: "C28",
                        signature: format!("committed-entries-disagree|on={}|cause={}", self.step_kind(ev, pkt), self.cause()),
                        what: format!("node {i} committed (index {}, term {}, data {}) but node {j} holds committed (index {}, term {}, data {})", e.index, e.term, e.data, o.index, o.term, o.data),
                    });
                    break 'outer;
                }
            }
        }
    }

    fn step_kind(&self, ev: &Event, pkt: Option<(&Packet, bool)>) -> String {
        match (ev, pkt) {
            (_, Some((p, _))) => match &p.msg {
                Msg::Req(r) => format!("{}-request", kind_name(r.v_kind())),
                Msg::Resp(r, resp) => format!("{}-reply-{}", kind_name(r.v_kind()), resp.v_kind_name()),
            },
            (Event::Proc(_), _) => "process".into(),
            (Event::Append(_), _) => "client-append".into(),
            _ => "other".into(),
        }
    }

    /// dominant causal flag of the history (most specific known cause first)
    pub fn cause(&self) -> &'static str {
        let f = self.ghost.flags;
        if f & F_UNEXPLAINED_BAD_ELECTION != 0 {
            "leader-elected-without-a-committed-entry-for-no-other-known-cause"
        } else if f & F_TWO_LEADERS != 0 {
            "two-leaders-one-term"
        } else if f & F_OLDER_LEADER_ACCEPTED != 0 {
            "follower-of-older-term-leader-after-voting-in-newer-term"
        } else if f & F_DIVERGENT_BY_BATCH != 0 {
            "reconcile-batch-stored-on-top-of-a-log-that-differs-from-the-leaders"
        } else if f & F_APPEND_ON_DIVERGENT_PREFIX != 0 {
            "entry-stored-on-top-of-a-log-that-differs-from-the-leaders"
        } else if f & F_STALE_ACK != 0 {
            "commit-on-reply-of-another-term"
        } else if f & F_ACK_WITHOUT_ENTRY != 0 {
            "commit-on-ok-of-follower-with-different-log"
        } else if f & F_OLD_TERM_COMMIT != 0 {
            "older-term-entry-committed-by-count"
        } else if f & F_DUP_INDEX != 0 {
            "two-entries-at-one-index"
        } else if f & F_STALE_VOTE != 0 {
            "vote-reply-of-another-term-counted"
        } else if f & F_DOUBLE_VOTE != 0 {
            "double-vote"
        } else {
            "none"
        }
    }

    fn c27_cause(&self, term: u64, a: u8, a_stale: u8, rival: (u64, u8, u8)) -> String {
        let (lo, hi) = (a.min(rival.1), a.max(rival.1));
        if let Some(dv) = self.ghost.double_votes.iter().find(|d| d.0 == term && d.2 == lo && d.3 == hi) {
            return format!("double-vote:{}", exit_kind_name(dv.4));
        }
        if a_stale != 0 || rival.2 != 0 {
            return "vote-reply-of-another-term-counted".into();
        }
        "unexplained".into()
    }

    // -----------------------------------------------------------------------
    // canonical encoding

    fn enc_node(&self, i: usize, n: &Node, out: &mut Vec<u8>) {
        let local_now = self.now + self.skew[i];
        let (kind, payload) = n.v_state();
        out.push(kind);
        out.extend_from_slice(&payload.to_le_bytes());
        out.extend_from_slice(&n.v_term().to_le_bytes());
        out.extend_from_slice(&n.v_election_timeout_ms().to_le_bytes());
        for j in 0..N {
            let v = n.v_node(j);
            out.extend_from_slice(&v.log_index.to_le_bytes());
            out.extend_from_slice(&v.log_term.to_le_bytes());
            out.extend_from_slice(&v.log_commit.to_le_bytes());
            let age = (local_now - v.timer_ms).min(AGE_CAP_MS);
            out.extend_from_slice(&(age as u16).to_le_bytes());
            out.push(v.voted as u8);
        }
        let s = &n.storage;
        out.extend_from_slice(&s.index.to_le_bytes());
        out.extend_from_slice(&s.term.to_le_bytes());
        out.extend_from_slice(&s.commit.to_le_bytes());
        out.push(s.fail_next_append as u8);
        out.extend_from_slice(&(s.entries.len() as u32).to_le_bytes());
        for e in &s.entries {
            out.extend_from_slice(&e.index.to_le_bytes());
            out.extend_from_slice(&e.term.to_le_bytes());
            out.push(e.data);
            out.push(e.committed as u8);
        }
    }

    /// Canonical bytes of the complete state. `with_ghost=false` leaves the
    /// ghost variables out (used by C30, whose verdict does not depend on them).
    pub fn key(&self, with_ghost: bool) -> Vec<u8> {
        self.key_split(with_ghost).0
    }

    /// (hash of the complete key, 64-bit hash of the key without the ghost variables)
    pub fn hashes(&self) -> (u128, u64) {
        let (k, split) = self.key_split(true);
        (hash128(&k), (hash128(&k[..split]) >> 64) as u64)
    }

    /// key bytes and the offset at which the ghost part starts
    pub fn key_split(&self, with_ghost: bool) -> (Vec<u8>, usize) {
        let mut out = Vec::with_capacity(768);
        for i in 0..N {
            self.enc_node(i, &self.nodes[i], &mut out);
        }
        out.push(self.multiset as u8);
        out.extend_from_slice(&(self.net.len() as u32).to_le_bytes());
        for p in &self.net {
            out.extend_from_slice(&(p.enc.len() as u32).to_le_bytes());
            out.extend_from_slice(&p.enc);
        }
        out.extend_from_slice(&(self.delayed.len() as u32).to_le_bytes());
        for p in &self.delayed {
            out.extend_from_slice(&(p.enc.len() as u32).to_le_bytes());
            out.extend_from_slice(&p.enc);
        }
        out.extend_from_slice(&(self.held.len() as u32).to_le_bytes());
        for p in &self.held {
            out.extend_from_slice(&(p.enc.len() as u32).to_le_bytes());
            out.extend_from_slice(&p.enc);
        }
        out.push(self.isolated.map(|i| i + 1).unwrap_or(0));
        out.push(self.appends);
        out.push(self.dups);
        out.push(self.storage_faults);
        let split = out.len();
        if with_ghost {
            let g = &self.ghost;
            for i in 0..N {
                out.extend_from_slice(&(g.grants[i].len() as u32).to_le_bytes());
                for (t, c) in &g.grants[i] {
                    out.extend_from_slice(&t.to_le_bytes());
                    out.push(*c);
                }
                out.push(g.voted_exit[i]);
                out.extend_from_slice(&g.cand_term[i].to_le_bytes());
                for v in 0..N {
                    out.extend_from_slice(&g.counted[i][v].to_le_bytes());
                }
            }
            out.extend_from_slice(&(g.double_votes.len() as u32).to_le_bytes());
            for d in &g.double_votes {
                out.extend_from_slice(&d.0.to_le_bytes());
                out.extend_from_slice(&[d.1, d.2, d.3, d.4]);
            }
            out.extend_from_slice(&(g.leaders.len() as u32).to_le_bytes());
            for l in &g.leaders {
                out.extend_from_slice(&l.0.to_le_bytes());
                out.extend_from_slice(&[l.1, l.2]);
            }
            out.extend_from_slice(&(g.leader_committed.len() as u32).to_le_bytes());
            for c in &g.leader_committed {
                out.extend_from_slice(&c.0.to_le_bytes());
                out.extend_from_slice(&c.1.to_le_bytes());
                out.push(c.2);
            }
            out.extend_from_slice(&g.flags.to_le_bytes());
        }
        (out, split)
    }

    pub fn hash(&self, with_ghost: bool) -> u128 {
        hash128(&self.key(with_ghost))
    }

    /// human-readable observation (printed by --replay, stored in replay files)
    pub fn observe(&self) -> serde_json::Value {
        let nodes: Vec<serde_json::Value> = (0..N)
            .map(|i| {
                let s = self.snap(i);
                serde_json::json!({
                    "node": i,
                    "state": state_name(s.kind, s.payload),
                    "term": s.term,
                    "commit_index_raft": s.raft_commit,
                    "commit_index_storage": s.storage_commit,
                    "log": s.entries.iter().map(|e| format!("(i{} t{} d{}{})", e.index, e.term, e.data, if e.committed { " C" } else { "" })).collect::<Vec<_>>(),
                })
            })
            .collect();
        serde_json::json!({
            "time_ms": self.now,
            "clock_lead_ms": self.skew,
            "isolated": self.isolated,
            "in_flight": self.net.iter().map(describe_packet).collect::<Vec<_>>(),
            "delayed": self.delayed.iter().map(describe_packet).collect::<Vec<_>>(),
            "held": self.held.iter().map(describe_packet).collect::<Vec<_>>(),
            "nodes": nodes,
            "leader_committed": self.ghost.leader_committed,
            "leaders_seen": self.ghost.leaders.iter().map(|l| format!("term {} node {}", l.0, l.1)).collect::<Vec<_>>(),
        })
    }

    pub fn check_consts(&self) {
        for i in 0..N {
            let c = self.nodes[i].v_consts();
            let want = [CLUSTER_HASH, N as u64, i as u64, ELECTION_FACTOR_MS * i as u64, HEARTBEAT_MS, TERM_TIMEOUT_MS];
            if c != want || self.nodes[i].v_size() != N || self.nodes[i].v_index() != i as u64 {
                panic!("HARNESS: construction-time fields of node {i} changed: {c:?}");
            }
        }
    }
}

pub fn hash128(bytes: &[u8]) -> u128 {
    let mut h1: u64 = 0x9E37_79B9_7F4A_7C15;
    let mut h2: u64 = 0xC2B2_AE3D_27D4_EB4F ^ (bytes.len() as u64);
    let mut chunks = bytes.chunks_exact(8);
    for c in &mut chunks {
        let w = u64::from_le_bytes(c.try_into().unwrap());
        h1 = (h1 ^ w).wrapping_mul(0x1000_0000_01B3).rotate_left(29) ^ (h1 >> 31);
        h2 = (h2.rotate_left(23) ^ w).wrapping_mul(0xFF51_AFD7_ED55_8CCD);
        h2 ^= h2 >> 33;
    }
    let rem = chunks.remainder();
    let mut last = [0u8; 8];
    last[..rem.len()].copy_from_slice(rem);
    let w = u64::from_le_bytes(last) ^ ((rem.len() as u64) << 56);
    h1 = (h1 ^ w).wrapping_mul(0x1000_0000_01B3).rotate_left(29) ^ (h1 >> 31);
    h2 = (h2.rotate_left(23) ^ w).wrapping_mul(0xFF51_AFD7_ED55_8CCD);
    // final avalanche (murmur3 fmix64)
    let fmix = |mut k: u64| {
        k ^= k >> 33;
        k = k.wrapping_mul(0xFF51_AFD7_ED55_8CCD);
        k ^= k >> 33;
        k = k.wrapping_mul(0xC4CE_B9FE_1A85_EC53);
        k ^= k >> 33;
        k
    };
    ((fmix(h1) as u128) << 64) | fmix(h2 ^ h1.rotate_left(17)) as u128
}
