//! Shim for `crate::server_error` as used by raft.rs (`ServerResult`, and
//! `ServerError::description` in `append_request`/`heartbeat_request`).

#[derive(Debug)]
pub struct ServerError {
    pub description: String,
}

pub type ServerResult<T = ()> = Result<T, ServerError>;
