//! Copies the non-test part of the repository's `raft.rs` (CURRENT working
//! tree, or `VERIF_RAFT_SRC` for the mutant runs) into OUT_DIR with purely
//! textual, anchor-checked substitutions:
//!   * `use std::time::Instant;`  ->  the harness' virtual clock
//!   * `Clone` added to the derive lists of the message/state types
//!   * one appended block (`src/observer.rs.in`): read-only accessors
//! Every anchor must be present exactly the expected number of times; else
//! the BUILD fails (machinery failure, never a verdict).

use std::path::PathBuf;

const DEFAULT_SRC: &str = "/repo/agdb_server/src/raft.rs";

fn replace_exact(text: &mut String, from: &str, to: &str, expected: usize, what: &str) {
    let n = text.matches(from).count();
    if n != expected {
        panic!("raft.rs anchor for {what} ({from:?}) found {n} times, expected {expected}: the harness substitutions no longer fit the source; fix build.rs");
    }
    *text = text.replace(from, to);
}

fn main() {
    println!("cargo:rerun-if-env-changed=VERIF_RAFT_SRC");
    let src = std::env::var("VERIF_RAFT_SRC").unwrap_or_else(|_| DEFAULT_SRC.to_string());
    println!("cargo:rerun-if-changed={src}");
    println!("cargo:rerun-if-changed=src/observer.rs.in");
    println!("cargo:rerun-if-changed=build.rs");
    let full = std::fs::read_to_string(&src).unwrap_or_else(|e| panic!("cannot read {src}: {e}"));

    // cut off the unit tests (they need tokio, anyhow, the server logger)
    let cut = full
        .find("\n#[cfg(test)]\nmod test")
        .unwrap_or_else(|| panic!("raft.rs anchor `#[cfg(test)] mod test` not found in {src}"));
    let mut text = full[..cut + 1].to_string();
    if text.contains("#[cfg(test)]") {
        panic!("unexpected second #[cfg(test)] in the non-test part of {src}");
    }

    replace_exact(&mut text, "use std::time::Instant;\n", "use crate::vclock::Instant;\n", 1, "virtual clock");
    // MismatchedValues, LogMismatch, RequestType, ResponseType, Request, Response
    replace_exact(
        &mut text,
        "#[derive(Debug, Serialize, Deserialize)]\n",
        "#[derive(Debug, Clone, Serialize, Deserialize)]\n",
        6,
        "Clone on message types",
    );
    replace_exact(&mut text, "#[derive(Debug)]\nenum ClusterState {", "#[derive(Debug, Clone)]\nenum ClusterState {", 1, "Clone on ClusterState");
    replace_exact(&mut text, "\nstruct Node {\n", "\n#[derive(Clone)]\nstruct Node {\n", 1, "Clone on Node");
    replace_exact(
        &mut text,
        "\npub(crate) struct Cluster<T, N, S: Storage<T, N>> {\n",
        "\n#[derive(Clone)]\npub(crate) struct Cluster<T, N, S: Storage<T, N>> {\n",
        1,
        "Clone on Cluster",
    );
    if std::time::Duration::from_millis(1).as_millis() != 1 || text.contains("std::time::Instant") || text.contains("SystemTime") {
        panic!("raft.rs still refers to a real clock after substitution");
    }

    let obs = std::fs::read_to_string("src/observer.rs.in").expect("src/observer.rs.in");
    text.push_str("\n// ---- appended by the verification harness (read-only observers) ----\n");
    text.push_str(&obs);

    let out = PathBuf::from(std::env::var("OUT_DIR").unwrap()).join("raft.rs");
    std::fs::write(&out, text).unwrap();
    println!("cargo:rustc-env=VERIF_RAFT_SRC_USED={src}");
}
