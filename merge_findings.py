#!/usr/bin/env python3
"""Merges the engines' FINDINGS_PROPOSED.json into known_findings.json (idempotent: keyed by property+signature)."""
import json,glob
p='/verif/known_findings.json'
d=json.load(open(p))
have={(f['property'],f['signature']) for f in d['findings']}
n=0
for src in ['/verif/harness/search_checks/FINDINGS_PROPOSED.json','/verif/harness/serde_checks/FINDINGS_PROPOSED.json','/verif/harness_raft/FINDINGS_PROPOSED.json','/verif/harness_server/FINDINGS_PROPOSED.json']:
    try: s=json.load(open(src))
    except Exception as e: print('skip',src,e); continue
    for f in s['findings']:
        k=(f['property'],f['signature'])
        if k in have: continue
        have.add(k); d['findings'].append(f); n+=1
json.dump(d,open(p,'w'),indent=2)
print('added',n,'total',len(d['findings']), 'open',sum(1 for f in d['findings'] if f['status']=='open'))
